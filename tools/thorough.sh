#!/bin/bash
# Thorough tier for one property. Everything is static analysis of source trees; nothing of /repo is executed.
#   1. the property's rules on /repo's current tree (default GOARCH)              -> evidence/<id>.json
#   2. the same rules on the program as built for GOARCH=386 (build-tagged files, 32-bit int), GOOS=windows and
#      GOOS=darwin (the other build-tagged socket / ECN / GSO files)
#   3. sensitivity audit: every confirmed seeded change recorded for this property in seeded/DETECTION.json is
#      applied to a scratch copy of the CURRENT tree and the rules are re-run on it; the audit records whether the
#      rules report a violation that the current tree does not have. A seeded change that no longer applies is
#      skipped. The audit never changes the verdict on /repo: it measures the checker, not the repository.
# exit 0: property held on everything explored; exit 1 + "VIOLATION property=<id> replay=<path>": a rule is violated.
set -u
prop=${1:?property id}
here=$(cd "$(dirname "$0")/.." && pwd)
repo=${UQ_REPO:-/repo}
bin="$here/bin/uqcheck"
[ -x "$bin" ] || "$here/tools/build.sh" >/dev/null || { echo "cannot build the checker"; exit 2; }
work=$(mktemp -d /tmp/uqthorough.XXXXXX)
trap 'rm -rf "$work"' EXIT
t0=$(date +%s.%N)

# 1. default arch
"$bin" -property "$prop" -tier thorough -repo "$repo" -verif "$here" > "$work/main.out" 2>&1
rc1=$?
grep -v conda "$work/main.out"
[ $rc1 -le 1 ] || { echo "checker failed (exit $rc1)"; exit 2; }

# 2. other build configurations (build-tagged files, 32-bit int): GOARCH=386, GOOS=windows, GOOS=darwin
rc2=0
mkdir -p "$work/ev386"
for cfg in "goarch 386" "goos windows" "goos darwin"; do
  set -- $cfg; flag=$1; val=$2; tag="${flag^^}=$val"
  evd="$work/ev$val"; mkdir -p "$evd"
  "$bin" -property "$prop" -tier thorough -repo "$repo" -verif "$here" -$flag "$val" -evidence-dir "$evd" > "$work/$val.out" 2>&1
  rcx=$?
  [ $rcx -le 1 ] || { grep -v conda "$work/$val.out" | tail -5; echo "checker failed on $tag (exit $rcx)"; exit 2; }
  if [ $rcx -eq 1 ]; then
    rc2=1
    cp "$evd/$prop.violations.json" "$here/evidence/$prop.$val.violations.json"
    grep -E "^  violated" "$work/$val.out" | sed "s/^  violated/  violated [$tag]/"
    echo "VIOLATION property=$prop replay=$here/evidence/$prop.$val.violations.json"
  else
    rm -f "$here/evidence/$prop.$val.violations.json"
  fi
  grep -E "^property=" "$work/$val.out" | sed "s/^/[$tag] /"
done

# 3. sensitivity audit
base_keys="$work/base.keys"
grep -E "^  violated" "$work/main.out" | sed -E 's/ at [^ ]+:[0-9]+.*//; s/ at -:.*//' | sort -u > "$base_keys"
audit="$work/audit.jsonl"; : > "$audit"
if [ -f "$here/seeded/DETECTION.json" ] && [ "${UQ_SKIP_AUDIT:-0}" != "1" ]; then
  for seed in $(python3 - "$here/seeded/DETECTION.json" "$prop" <<'PY'
import json,sys
d=json.load(open(sys.argv[1]))
for s,e in sorted(d.items()):
    if sys.argv[2] in e.get("detected_by_properties",[]): print(s)
PY
); do
    patch="$here/seeded/$seed/patch.diff"
    [ -f "$patch" ] || continue
    d="$work/v"; rm -rf "$d"; mkdir -p "$d/ev"
    rsync -a --exclude .git "$repo/" "$d/repo/"
    if ! (cd "$d/repo" && patch -p1 -s --no-backup-if-mismatch < "$patch" >/dev/null 2>&1); then
      echo "{\"seed\":\"$seed\",\"status\":\"skipped: does not apply to the current tree\"}" >> "$audit"; rm -rf "$d"; continue
    fi
    "$bin" -property "$prop" -tier thorough -repo "$d/repo" -verif "$here" -evidence-dir "$d/ev" > "$d/out" 2>&1
    new=$(grep -E "^  violated" "$d/out" | sed -E 's/ at [^ ]+:[0-9]+.*//; s/ at -:.*//' | sort -u | comm -23 - "$base_keys" | head -3 | sed 's/^  violated //' | tr '\n' '|' | sed 's/"/\\"/g')
    if [ -n "$new" ]; then st="detected"; else st="NOT detected"; fi
    echo "{\"seed\":\"$seed\",\"status\":\"$st\",\"by\":\"$new\"}" >> "$audit"
    echo "[audit] $seed: $st ${new:0:160}"
    rm -rf "$d"
  done
fi

# 4. specificity audit: behaviour-preserving refactorings (benign/*.diff) that touch this property's anchored files
#    are applied to a scratch copy; the rules must stay silent (anything they report beyond the current tree is a
#    false alarm of the checker). Recorded, never changes the verdict on /repo.
spec="$work/spec.jsonl"; : > "$spec"
if [ -d "$here/benign" ] && [ "${UQ_SKIP_AUDIT:-0}" != "1" ]; then
  for b in $(python3 - "$here/properties.jsonl" "$prop" "$here/benign" <<'PY'
import json,sys,fnmatch,glob,os,re
pats=[]
for l in open(sys.argv[1]):
    d=json.loads(l)
    if d["id"]==sys.argv[2]: pats=d["anchors"]["files"]
for f in sorted(glob.glob(os.path.join(sys.argv[3],"*.diff"))):
    touched=re.findall(r'^\+\+\+ b/(\S+)', open(f).read(), flags=re.M)
    if any(fnmatch.fnmatch(t,p) or (p.endswith('/') and t.startswith(p)) for t in touched for p in pats):
        print(os.path.basename(f)[:-5])
PY
); do
    d="$work/b"; rm -rf "$d"; mkdir -p "$d/ev"
    rsync -a --exclude .git "$repo/" "$d/repo/"
    if ! (cd "$d/repo" && patch -p1 -s --no-backup-if-mismatch < "$here/benign/$b.diff" >/dev/null 2>&1); then
      echo "{\"patch\":\"$b\",\"status\":\"skipped: does not apply to the current tree\"}" >> "$spec"; rm -rf "$d"; continue
    fi
    "$bin" -property "$prop" -tier thorough -repo "$d/repo" -verif "$here" -evidence-dir "$d/ev" > "$d/out" 2>&1
    new=$(grep -E "^  violated" "$d/out" | sed -E 's/ at [^ ]+:[0-9]+.*//; s/ at -:.*//' | sort -u | comm -23 - "$base_keys" | head -3 | sed 's/^  violated //' | tr '\n' '|' | sed 's/"/\\"/g')
    if [ -n "$new" ]; then st="FALSE ALARM"; else st="silent"; fi
    echo "{\"patch\":\"$b\",\"status\":\"$st\",\"by\":\"$new\"}" >> "$spec"
    [ "$st" = "silent" ] || echo "[specificity] $b: $st ${new:0:160}"
    rm -rf "$d"
  done
fi

# merge into the evidence file
python3 - "$here/evidence/$prop.json" "$work" "$audit" "$t0" "$spec" "$prop" <<'PY'
import json,sys,time,os
ev=json.load(open(sys.argv[1]))
for val,name in (("386","goarch_386"),("windows","goos_windows"),("darwin","goos_darwin")):
    try:
        e=json.load(open(os.path.join(sys.argv[2],"ev"+val,sys.argv[6]+".json")))
        ev["coverage"][name]={k:e["coverage"].get(k) for k in ("obligations","discharged","known_findings","functions_analysed")}
        ev["coverage"][name]["violations"]=e.get("violations",0)
        ev["coverage"]["evaluations"]=ev["coverage"].get("evaluations",0)+e["coverage"].get("evaluations",0)
    except Exception as ex:
        ev["coverage"][name]={"error":str(ex)}
audit=[json.loads(l) for l in open(sys.argv[3]) if l.strip()]
ev["coverage"]["sensitivity_audit"]={"what":"confirmed seeded property-breaking changes (seeded/<id>/patch.diff) applied to a scratch copy of the current tree; the rules must report a violation absent from the current tree",
  "seeds":audit,"applied":sum(1 for a in audit if not a["status"].startswith("skipped")),"detected":sum(1 for a in audit if a["status"]=="detected")}
ev["coverage"]["evaluations"]=ev["coverage"].get("evaluations",0)+sum(1 for a in audit if not a["status"].startswith("skipped"))
sp=[json.loads(l) for l in open(sys.argv[5]) if l.strip()]
ev["coverage"]["specificity_audit"]={"what":"behaviour-preserving refactorings (benign/<id>.diff) touching this property's anchored files, applied to a scratch copy of the current tree; the rules must report nothing beyond the current tree",
  "patches":sp,"applied":sum(1 for a in sp if not a["status"].startswith("skipped")),"silent":sum(1 for a in sp if a["status"]=="silent")}
ev["coverage"]["evaluations"]=ev["coverage"].get("evaluations",0)+sum(1 for a in sp if not a["status"].startswith("skipped"))
ev["wall_s"]=time.time()-float(sys.argv[4])
ev["tier"]="thorough"
json.dump(ev,open(sys.argv[1],"w"),indent=1)
a=ev["coverage"]["sensitivity_audit"]
b=ev["coverage"]["specificity_audit"]
print(f"[thorough] GOARCH=386, GOOS=windows, GOOS=darwin re-evaluated; sensitivity audit: {a['detected']}/{a['applied']} seeded changes detected; specificity audit: {b['silent']}/{b['applied']} behaviour-preserving refactorings leave the rules silent")
PY
if [ $rc1 -eq 1 ] || [ $rc2 -eq 1 ]; then exit 1; fi
exit 0
