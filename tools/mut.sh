#!/bin/bash
# Self-test helper: apply a one-line mutation to a scratch copy of /repo, check that it
# still compiles, run one property check against the copy, delete the copy.
# usage: mut.sh <property> <relative-file> <sed-expression> [more file/sed pairs...]
# exit 0 when the checker REPORTS a violation (mutant detected), 1 when it stays silent.
prop=$1; shift
d=$(mktemp -d /tmp/uqmut.XXXXXX)
trap 'rm -rf "$d"' EXIT
rsync -a --exclude .git /repo/ "$d/repo/"
while [ $# -ge 2 ]; do
  f=$1; e=$2; shift 2
  before=$(md5sum "$d/repo/$f")
  sed -i -E "$e" "$d/repo/$f"
  after=$(md5sum "$d/repo/$f")
  if [ "$before" == "$after" ]; then echo "MUTATION DID NOT APPLY: $f $e"; exit 3; fi
done
export GOFLAGS=-mod=mod GOPROXY=off GOSUMDB=off GOTOOLCHAIN=local GOWORK=off
if ! (cd "$d/repo" && go1.26.8 build ./ ./http3/... ./internal/... ./quicvarint 2>&1 | grep -v conda | head -5; exit ${PIPESTATUS[0]}); then echo "MUTANT DOES NOT COMPILE"; exit 4; fi
mkdir -p "$d/ev"
out=$(/verif/bin/uqcheck -property "$prop" -repo "$d/repo" -verif /verif -evidence-dir "$d/ev" 2>&1 | grep -v conda)
echo "$out" | grep -E "violated|VIOLATION|property=" | head -${MUT_LINES:-6}
if echo "$out" | grep -q "^VIOLATION"; then exit 0; else echo "NOT DETECTED"; exit 1; fi
