#!/bin/bash
# Builds the checker offline from files on disk only.
set -e
cd "$(dirname "$0")/../checker"
export GOFLAGS=-mod=mod GOPROXY=off GOSUMDB=off GOTOOLCHAIN=local GOWORK=off
unset GOEXPERIMENT GOOS GOARCH
GO=go1.26.8
command -v $GO >/dev/null 2>&1 || GO=/opt/veriftools/go1.26.8/bin/go
mkdir -p ../bin
# build beside the target and rename: a check that is running (or starting) never sees a half-written binary
$GO build -o ../bin/.uqcheck.new .
mv -f ../bin/.uqcheck.new ../bin/uqcheck
echo "built /verif/bin/uqcheck"
# the mutant generator used by tools/mutscore.py (a measuring tool, not a check)
(cd ../tools/mutgen && $GO build -o ../../bin/.mutgen.new . && mv -f ../../bin/.mutgen.new ../../bin/mutgen ) && echo "built /verif/bin/mutgen"
